package bsem

import (
	"fmt"
	"net"
	"strings"
	"sync"
	"testing"
	"time"

	"github.com/pion/logging"
	"github.com/pion/stun/v3"
	turn "github.com/pion/turn/v5"
	"github.com/pion/turn/v5/verif/sched"
	"github.com/pion/turn/v5/verif/shim/vsched"
	"github.com/pion/turn/v5/verif/simnet"
	"github.com/pion/turn/v5/verif/vtx"
	"github.com/pion/turn/v5/verif/wire"
)

// Client-side Engine-B scenarios: the real (instrumented) turn.Client over a
// scheduler-aware simnet socket, the harness plays the TURN server in threads.

type quietLF struct{}

func (quietLF) NewLogger(string) logging.LeveledLogger { return vtx.Quiet{} }

type cworld struct {
	nw      *simnet.Net
	srv     *simnet.UDPSock
	cs      *simnet.UDPSock
	cl      *turn.Client
	srvAddr *net.UDPAddr
	mu      sync.Mutex
	seen    []*wire.Msg // requests seen by the scripted server, in order
	sent    []string    // wire log of data toward peers ("send:<peer>:<payload>", "chan:<n>:<payload>")
	perms   map[string]bool
	binds   map[uint16]string
	relayed net.PacketConn // the relayed conn of the scenario, closed at teardown (stops its periodic timers)
}

// teardown releases everything the client side started; without closing the
// relayed conn its three PeriodicTimer goroutines would outlive the execution.
func (w *cworld) teardown() {
	if w.relayed != nil {
		_ = w.relayed.Close()
	}
	w.cl.Close()
	_ = w.cs.Close()
}

func newCWorld(rto time.Duration) *cworld {
	w := &cworld{nw: simnet.New(), srvAddr: vtx.SrvV4, perms: map[string]bool{}, binds: map[uint16]string{}}
	w.nw.Sched = vsched.SimHook{}
	var err error
	if w.srv, err = w.nw.ListenUDP("udp", w.srvAddr); err != nil {
		panic(err)
	}
	if w.cs, err = w.nw.ListenUDP("udp", &net.UDPAddr{IP: net.IPv4(10, 0, 0, 2).To4(), Port: 4000}); err != nil {
		panic(err)
	}
	w.cl, err = turn.NewClient(&turn.ClientConfig{
		STUNServerAddr: w.srvAddr.String(), TURNServerAddr: w.srvAddr.String(), Conn: w.cs,
		Username: "u1", Password: "p1", Realm: vtx.Realm, LoggerFactory: quietLF{}, Net: w.nw.Transport(), RTO: rto,
	})
	if err != nil {
		panic(err)
	}
	if err := w.cl.Listen(); err != nil {
		panic(err)
	}

	return w
}

// next blocks (as a scheduling point) until the client has sent something and returns it.
func (w *cworld) next(name string) (simnet.Dgram, bool) {
	vsched.Block("await", name, func() bool { return w.srv.Pending() > 0 })
	d := w.srv.Drain()
	if len(d) == 0 {
		return simnet.Dgram{}, false
	}
	// put the rest back in order
	for _, x := range d[1:] {
		w.srv.Inject(x.Src, x.Data)
	}

	return d[0], true
}

func (w *cworld) reply(b []byte) { _, _ = w.srv.WriteTo(b, w.cs.LocalAddr()) }

// autoServer answers Allocate (401 then success), CreatePermission, ChannelBind
// and Refresh with success and logs application data, until nothing arrives any more.
func (w *cworld) autoServer() {
	relay := &net.UDPAddr{IP: net.IPv4(10, 9, 0, 1).To4(), Port: 49152}
	for {
		d, ok := w.next("server")
		if !ok {
			continue
		}
		if len(d.Data) > 0 && d.Data[0]&0xC0 == 0x40 {
			n, pl, okc := wire.ParseChannelData(d.Data)
			if okc {
				w.mu.Lock()
				w.sent = append(w.sent, fmt.Sprintf("chan:%#x:%s", n, pl))
				w.mu.Unlock()
			}

			continue
		}
		m, err := wire.Parse(d.Data)
		if err != nil {
			continue
		}
		w.mu.Lock()
		w.seen = append(w.seen, m)
		w.mu.Unlock()
		key := wire.LongTermKey("u1", vtx.Realm, "p1")
		_, hasMI := m.Get(wire.AttrMessageIntegrity)
		switch {
		case m.Class == wire.Indication && m.Method == wire.Send:
			pa, _ := m.XorAddr(wire.AttrXORPeerAddress)
			pl, _ := m.Get(wire.AttrData)
			w.mu.Lock()
			w.sent = append(w.sent, fmt.Sprintf("send:%s:%s", pa, pl))
			w.mu.Unlock()
		case m.Class != wire.Request:
		case m.Method == wire.Allocate && !hasMI:
			w.reply(wire.New(wire.Allocate, wire.Error, m.TxID).Attr(wire.AttrErrorCode, []byte{0, 0, 4, 1}).
				Str(wire.AttrNonce, "nonce-1").Str(wire.AttrRealm, vtx.Realm).Bytes())
		case m.Method == wire.Allocate:
			w.reply(wire.New(wire.Allocate, wire.Success, m.TxID).XorAddr(wire.AttrXORRelayedAddress, relay.IP, relay.Port).
				U32(wire.AttrLifetime, 600).XorAddr(wire.AttrXORMappedAddress, net.IPv4(10, 0, 0, 2), 4000).Integrity(key).Bytes())
		case m.Method == wire.CreatePermission:
			if pa, ok := m.XorAddr(wire.AttrXORPeerAddress); ok {
				w.mu.Lock()
				w.perms[pa.IP.String()] = true
				w.mu.Unlock()
			}
			w.reply(wire.New(wire.CreatePermission, wire.Success, m.TxID).Integrity(key).Bytes())
		case m.Method == wire.ChannelBind:
			n, _ := m.U32(wire.AttrChannelNumber)
			pa, _ := m.XorAddr(wire.AttrXORPeerAddress)
			w.mu.Lock()
			w.binds[uint16(n>>16)] = pa.String() //nolint:gosec
			w.mu.Unlock()
			w.reply(wire.New(wire.ChannelBind, wire.Success, m.TxID).Integrity(key).Bytes())
		case m.Method == wire.Refresh:
			lt := uint32(600)
			if v, ok := m.U32(wire.AttrLifetime); ok {
				lt = v
			}
			w.reply(wire.New(wire.Refresh, wire.Success, m.TxID).U32(wire.AttrLifetime, lt).Integrity(key).Bytes())
		case m.Method == wire.Binding:
			w.reply(wire.New(wire.Binding, wire.Success, m.TxID).XorAddr(wire.AttrXORMappedAddress, net.IPv4(10, 0, 0, 2), 4000).Bytes())
		}
	}
}

func bindingReq() *stun.Message {
	m, err := stun.Build(stun.TransactionID, stun.BindingRequest)
	if err != nil {
		panic(err)
	}

	return m
}

// k1: one transaction, its response arriving just before the retransmission
// timer, a duplicate response, and Close, all racing. The caller must return
// exactly once with its own response or a documented error; nothing may crash,
// deadlock or stay blocked.
func k1() *sched.Scenario {
	return &sched.Scenario{Name: "K1-transaction-vs-response-vs-rtx-vs-close", Bound: bound(), FreeBound: 3, Opt: opt,
		Body: func(*vsched.Sched) (func() []string, func()) {
			w := newCWorld(100 * time.Millisecond)
			var nt notes
			vsched.Go("app", func() {
				req := bindingReq()
				res, err := w.cl.PerformTransaction(req, w.srvAddr, false)
				switch {
				case err != nil:
					nt.set("app", "error:"+errKind(err))
				case res.Msg == nil || res.Msg.TransactionID != req.TransactionID:
					nt.set("app", "foreign-response")
				default:
					nt.set("app", "response")
				}
			})
			vsched.Go("server", func() {
				d, _ := w.next("server")
				m, err := wire.Parse(d.Data)
				if err != nil {
					return
				}
				vsched.IdleSleep(100*time.Millisecond - time.Nanosecond) // the retransmission timer is due in 1 ns
				vsched.Mark()
				vsched.Go("closer", func() {
					w.cl.Close()
					nt.set("closer", "done")
				})
				resp := wire.New(wire.Binding, wire.Success, m.TxID).XorAddr(wire.AttrXORMappedAddress, net.IPv4(10, 0, 0, 2), 4000).Bytes()
				w.reply(resp)
				w.reply(resp) // duplicate
				nt.set("server", "done")
			})

			return func() []string {
				var out []string
				switch nt.get("app") {
				case "":
					out = append(out, "c12:transaction-never-returned")
				case "foreign-response":
					out = append(out, "c12:returned-another-transactions-response")
				}
				if nt.get("closer") != "done" {
					out = append(out, "c12:close-never-returned")
				}

				return out
			}, func() { _ = w.cs.Close() }
		}}
}

// k12: the response arrives at the instant the LAST timer of the transaction is due (RTO 100 ms: transmissions
// at 0, 0.1, 0.3, 0.7, 1.5, 3.1 and 4.7 s, failure at 6.3 s). Whichever of the two wins, the caller returns once,
// with the response or with the time-out error, and the client is usable afterwards: a second transaction is
// answered and Close returns.
func k12() *sched.Scenario {
	return &sched.Scenario{Name: "K12-response-at-the-final-timeout", Bound: bound(), FreeBound: 3, Opt: opt,
		Body: func(*vsched.Sched) (func() []string, func()) {
			w := newCWorld(100 * time.Millisecond)
			var nt notes
			vsched.Go("app", func() {
				req := bindingReq()
				res, err := w.cl.PerformTransaction(req, w.srvAddr, false)
				switch {
				case err != nil:
					nt.set("app", "error:"+errKind(err))
				case res.Msg == nil || res.Msg.TransactionID != req.TransactionID:
					nt.set("app", "foreign-response")
				default:
					nt.set("app", "response")
				}
			})
			vsched.Go("server", func() {
				d, _ := w.next("server")
				m, err := wire.Parse(d.Data)
				if err != nil {
					return
				}
				vsched.IdleSleep(6300*time.Millisecond - time.Nanosecond) // the final timer is due in 1 ns
				vsched.Mark()
				w.reply(wire.New(wire.Binding, wire.Success, m.TxID).XorAddr(wire.AttrXORMappedAddress, net.IPv4(10, 0, 0, 2), 4000).Bytes())
				vsched.IdleSleep(time.Second)
				w.srv.Drain() // the retransmissions of the first transaction
				vsched.Go("app2", func() {
					req := bindingReq()
					res, err := w.cl.PerformTransaction(req, w.srvAddr, false)
					if err == nil && res.Msg != nil && res.Msg.TransactionID == req.TransactionID {
						nt.set("app2", "response")
					} else {
						nt.set("app2", "failed")
					}
				})
				d2, _ := w.next("server")
				if m2, err := wire.Parse(d2.Data); err == nil {
					w.reply(wire.New(wire.Binding, wire.Success, m2.TxID).XorAddr(wire.AttrXORMappedAddress, net.IPv4(10, 0, 0, 2), 4000).Bytes())
				}
				vsched.IdleSleep(time.Second)
				w.cl.Close()
				nt.set("closer", "done")
			})

			return func() []string {
				var out []string
				switch nt.get("app") {
				case "":
					out = append(out, "c12:transaction-never-returned")
				case "foreign-response":
					out = append(out, "c12:returned-another-transactions-response")
				}
				if nt.get("app2") != "response" {
					out = append(out, "c12:client-unusable-after-a-response-at-the-final-timeout:second-transaction-"+nt.get("app2"))
				}
				if nt.get("closer") != "done" {
					out = append(out, "c12:close-never-returned")
				}

				return out
			}, func() { _ = w.cs.Close() }
		}}
}

func errKind(err error) string {
	s := err.Error()
	switch {
	case strings.Contains(s, "closed"):
		return "closed"
	case strings.Contains(s, "retransmissions"):
		return "timeout"
	}

	return "other"
}

// k1b: two concurrent transactions whose responses arrive in the opposite
// order around the first retransmission; each caller gets its own response.
func k1b() *sched.Scenario {
	return &sched.Scenario{Name: "K1b-two-transactions-crossed-responses", Bound: bound(), FreeBound: 3, Opt: opt,
		Body: func(*vsched.Sched) (func() []string, func()) {
			w := newCWorld(100 * time.Millisecond)
			var nt notes
			ids := map[string][12]byte{}
			var mu sync.Mutex
			for _, name := range []string{"app1", "app2"} {
				vsched.Go(name, func() {
					req := bindingReq()
					mu.Lock()
					ids[name] = req.TransactionID
					mu.Unlock()
					res, err := w.cl.PerformTransaction(req, w.srvAddr, false)
					switch {
					case err != nil:
						nt.set(name, "error:"+errKind(err))
					case res.Msg.TransactionID != req.TransactionID:
						nt.set(name, "foreign-response")
					default:
						nt.set(name, "response")
					}
				})
			}
			vsched.Go("server", func() {
				var txs [][12]byte
				for len(txs) < 2 {
					d, _ := w.next("server")
					if m, err := wire.Parse(d.Data); err == nil {
						dup := false
						for _, t := range txs {
							dup = dup || t == m.TxID
						}
						if !dup {
							txs = append(txs, m.TxID)
						}
					}
				}
				vsched.IdleSleep(100*time.Millisecond - time.Nanosecond)
				vsched.Mark()
				for i := len(txs) - 1; i >= 0; i-- { // opposite order
					w.reply(wire.New(wire.Binding, wire.Success, txs[i]).XorAddr(wire.AttrXORMappedAddress, net.IPv4(10, 0, 0, 2), 4000).Bytes())
				}
			})

			return func() []string {
				var out []string
				for _, n := range []string{"app1", "app2"} {
					switch nt.get(n) {
					case "response":
					case "":
						out = append(out, "c12:transaction-never-returned")
					default:
						out = append(out, "c12:transaction-outcome-"+nt.get(n))
					}
				}

				return out
			}, w.teardown
		}}
}

// k2: two application goroutines write to the same new peer concurrently. In
// every schedule nothing is emitted toward the peer before the CreatePermission
// success was delivered, both writes return, and every payload is emitted at most once.
func k2() *sched.Scenario {
	return &sched.Scenario{Name: "K2-two-writers-one-new-peer", Bound: bound() - 1, FreeBound: 2, Opt: opt,
		Body: func(*vsched.Sched) (func() []string, func()) {
			w := newCWorld(100 * time.Millisecond)
			var nt notes
			peerA := vtx.PeerSpec["A"]
			vsched.Go("server", w.autoServer)
			vsched.Go("app", func() {
				conn, err := w.cl.Allocate()
				if err != nil {
					nt.set("alloc", "failed:"+err.Error())

					return
				}
				nt.set("alloc", "ok")
				w.relayed = conn
				vsched.Mark()
				for _, name := range []string{"w1", "w2"} {
					vsched.Go(name, func() {
						_, err := conn.WriteTo([]byte("payload-"+name), peerA)
						if err != nil {
							nt.set(name, "error")
						} else {
							nt.set(name, "ok")
						}
					})
				}
			})

			return func() []string {
				var out []string
				if nt.get("alloc") != "ok" {
					return []string{"c13:allocate-failed:" + nt.get("alloc")}
				}
				for _, n := range []string{"w1", "w2"} {
					if nt.get(n) == "" {
						out = append(out, "c13:writeto-never-returned")
					}
				}
				w.mu.Lock()
				defer w.mu.Unlock()
				// order of the server's log: no data toward A before the CreatePermission was seen
				permSeen := false
				count := map[string]int{}
				for _, m := range w.seen {
					if m.Method == wire.CreatePermission {
						permSeen = true
					}
					if m.Method == wire.Send && m.Class == wire.Indication && !permSeen {
						out = append(out, "c13:data-emitted-before-permission")
					}
				}
				for _, s := range w.sent {
					count[s[strings.LastIndex(s, ":")+1:]]++
				}
				for pl, n := range count {
					if n > 1 {
						out = append(out, "c13:payload-emitted-twice:"+pl)
					}
				}
				// "every peer its own channel number": all ChannelBind requests seen name one number for the peer
				nums := map[string]map[uint16]bool{}
				for _, m := range w.seen {
					if m.Method != wire.ChannelBind || m.Class != wire.Request {
						continue
					}
					n, _ := m.U32(wire.AttrChannelNumber)
					pa, _ := m.XorAddr(wire.AttrXORPeerAddress)
					if pa == nil {
						continue
					}
					if nums[pa.String()] == nil {
						nums[pa.String()] = map[uint16]bool{}
					}
					nums[pa.String()][uint16(n>>16)] = true //nolint:gosec
				}
				for p, set := range nums {
					if len(set) > 1 {
						out = append(out, fmt.Sprintf("c13:peer-bound-to-%d-channel-numbers:%s", len(set), p))
					}
				}

				return out
			}, w.teardown
		}}
}

// k3: Close of the relayed socket races a WriteTo and an inbound Data indication.
func k3() *sched.Scenario {
	return &sched.Scenario{Name: "K3-relay-close-vs-write-vs-inbound", Bound: bound() - 1, FreeBound: bound() - 1, Opt: opt,
		Body: func(*vsched.Sched) (func() []string, func()) {
			w := newCWorld(100 * time.Millisecond)
			var nt notes
			peerA := vtx.PeerSpec["A"]
			vsched.Go("server", w.autoServer)
			vsched.Go("app", func() {
				conn, err := w.cl.Allocate()
				if err != nil {
					nt.set("alloc", "failed:"+err.Error())

					return
				}
				nt.set("alloc", "ok")
				w.relayed = conn
				_, _ = conn.WriteTo([]byte("first"), peerA)
				vsched.Mark()
				vsched.Go("writer", func() {
					_, _ = conn.WriteTo([]byte("second"), peerA)
					nt.set("writer", "done")
				})
				vsched.Go("inbound", func() {
					_, _ = w.srv.WriteTo(wire.New(wire.Data, wire.Indication, [12]byte{1}).
						XorAddr(wire.AttrXORPeerAddress, peerA.IP, peerA.Port).Str(wire.AttrData, "from-peer").Bytes(), w.cs.LocalAddr())
					nt.set("inbound", "done")
				})
				_ = conn.Close()
				nt.set("closer", "done")
			})

			return func() []string {
				var out []string
				if nt.get("alloc") != "ok" {
					return []string{"c13:allocate-failed:" + nt.get("alloc")}
				}
				for _, n := range []string{"writer", "inbound", "closer"} {
					if nt.get(n) != "done" {
						out = append(out, "c13:"+n+"-never-returned")
					}
				}

				return out
			}, w.teardown
		}}
}

// k5: ReadFrom racing an inbound Data indication and Close: ReadFrom returns
// (data or error), never blocks for ever, and never invents data.
func k5() *sched.Scenario {
	return &sched.Scenario{Name: "K5-readfrom-vs-inbound-vs-close", Bound: bound() - 1, FreeBound: bound() - 1, Opt: opt,
		Body: func(*vsched.Sched) (func() []string, func()) {
			w := newCWorld(100 * time.Millisecond)
			var nt notes
			peerA := vtx.PeerSpec["A"]
			vsched.Go("server", w.autoServer)
			vsched.Go("app", func() {
				conn, err := w.cl.Allocate()
				if err != nil {
					nt.set("alloc", "failed:"+err.Error())

					return
				}
				nt.set("alloc", "ok")
				w.relayed = conn
				_, _ = conn.WriteTo([]byte("first"), peerA)
				vsched.Mark()
				vsched.Go("reader", func() {
					buf := make([]byte, 100)
					n, from, err := conn.ReadFrom(buf)
					switch {
					case err != nil:
						nt.set("reader", "error")
					case string(buf[:n]) == "from-peer" && from.String() == peerA.String():
						nt.set("reader", "data")
					default:
						nt.set("reader", fmt.Sprintf("invented:%q from %v", buf[:n], from))
					}
				})
				vsched.Go("inbound", func() {
					_, _ = w.srv.WriteTo(wire.New(wire.Data, wire.Indication, [12]byte{1}).
						XorAddr(wire.AttrXORPeerAddress, peerA.IP, peerA.Port).Str(wire.AttrData, "from-peer").Bytes(), w.cs.LocalAddr())
				})
				_ = conn.Close()
				nt.set("closer", "done")
			})

			return func() []string {
				if nt.get("alloc") != "ok" {
					return []string{"c13:allocate-failed:" + nt.get("alloc")}
				}
				var out []string
				switch r := nt.get("reader"); {
				case r == "":
					out = append(out, "c13:readfrom-never-returned-after-close")
				case strings.HasPrefix(r, "invented"):
					out = append(out, "c13:readfrom-returned-wrong-data\n"+r)
				}
				if nt.get("closer") != "done" {
					out = append(out, "c13:close-never-returned")
				}

				return out
			}, w.teardown
		}}
}

// k6: Close racing the *start* of a transaction (between the insertion into the
// table, the first write, the arming of the timer and the wait): the caller
// returns in every schedule - with the closed error, or, when Close came first,
// with the time-out after the seven transmissions nobody answers.
func k6() *sched.Scenario {
	return &sched.Scenario{Name: "K6-close-vs-transaction-start", Bound: bound(), FreeBound: 3, Opt: opt,
		Body: func(*vsched.Sched) (func() []string, func()) {
			w := newCWorld(100 * time.Millisecond)
			var nt notes
			vsched.Go("driver", func() {
				vsched.Mark()
				vsched.Go("app", func() {
					req := bindingReq()
					res, err := w.cl.PerformTransaction(req, w.srvAddr, false)
					switch {
					case err != nil:
						nt.set("app", "error:"+errKind(err))
					case res.Msg == nil || res.Msg.TransactionID != req.TransactionID:
						nt.set("app", "foreign-response")
					default:
						nt.set("app", "response")
					}
				})
				vsched.Go("closer", func() {
					w.cl.Close()
					nt.set("closer", "done")
				})
				vsched.IdleSleep(10 * time.Second) // lets the virtual clock run through the whole retransmission timetable
			})

			return func() []string {
				var out []string
				switch a := nt.get("app"); {
				case a == "":
					out = append(out, "c12:transaction-never-returned")
				case !strings.HasPrefix(a, "error:"):
					out = append(out, "c12:unanswered-transaction-returned-"+a)
				}
				if nt.get("closer") != "done" {
					out = append(out, "c12:close-never-returned")
				}

				return out
			}, func() { _ = w.cs.Close() }
		}}
}

// k7: the answer to the first transmission is as fast as the network allows:
// the server replies the moment the request is out, so the client's read loop
// may handle the response while the sender is still between its first write
// and whatever it does next (registering, arming the timer, waiting). Later
// transmissions are not answered. In every schedule the caller gets that first
// response, after exactly one transmission.
func k7() *sched.Scenario {
	return &sched.Scenario{Name: "K7-response-as-fast-as-the-first-write", Bound: bound(), FreeBound: 3, Opt: opt,
		Body: func(*vsched.Sched) (func() []string, func()) {
			w := newCWorld(100 * time.Millisecond)
			var nt notes
			sent := 0
			vsched.Go("driver", func() {
				vsched.Mark()
				vsched.Go("app", func() {
					req := bindingReq()
					res, err := w.cl.PerformTransaction(req, w.srvAddr, false)
					switch {
					case err != nil:
						nt.set("app", "error:"+errKind(err))
					case res.Msg == nil || res.Msg.TransactionID != req.TransactionID:
						nt.set("app", "foreign-response")
					default:
						nt.set("app", "response")
					}
				})
				vsched.Go("server", func() {
					for {
						d, ok := w.next("server")
						if !ok {
							continue
						}
						sent++
						if m, err := wire.Parse(d.Data); err == nil && sent == 1 {
							w.reply(wire.New(wire.Binding, wire.Success, m.TxID).XorAddr(wire.AttrXORMappedAddress, net.IPv4(10, 0, 0, 2), 4000).Bytes())
						}
					}
				})
				vsched.IdleSleep(10 * time.Second)
			})

			return func() []string {
				var out []string
				if a := nt.get("app"); a != "response" {
					out = append(out, "c12:answered-first-transmission-but-transaction-ended-with:"+a)
				}
				if sent != 1 {
					out = append(out, fmt.Sprintf("c12:request-transmitted-%d-times-although-the-first-was-answered", sent))
				}

				return out
			}, func() { w.cl.Close(); _ = w.cs.Close() }
		}}
}

func TestC12Sched(t *testing.T) { run(t, "C12", k1(), k1b(), k6(), k7(), k12()) }

// k8: two goroutines close the relayed socket at the same time (the library
// itself is the second closer when a ChannelBind is refused): both calls
// return, exactly one of them without error, nothing panics.
func k8() *sched.Scenario {
	return &sched.Scenario{Name: "K8-two-closers-of-the-relayed-socket", Bound: bound() - 1, FreeBound: 1, Opt: opt,
		Body: func(*vsched.Sched) (func() []string, func()) {
			w := newCWorld(100 * time.Millisecond)
			var nt notes
			vsched.Go("server", w.autoServer)
			vsched.Go("app", func() {
				conn, err := w.cl.Allocate()
				if err != nil {
					nt.set("alloc", "failed:"+err.Error())

					return
				}
				nt.set("alloc", "ok")
				w.relayed = conn
				vsched.Mark()
				for _, name := range []string{"closer1", "closer2"} {
					vsched.Go(name, func() {
						if err := conn.Close(); err != nil {
							nt.set(name, "error")
						} else {
							nt.set(name, "nil")
						}
					})
				}
			})

			return func() []string {
				if nt.get("alloc") != "ok" {
					return []string{"c13:allocate-failed:" + nt.get("alloc")}
				}
				a, b := nt.get("closer1"), nt.get("closer2")
				switch {
				case a == "" || b == "":
					return []string{"c13:close-never-returned"}
				case a == "nil" && b == "nil":
					return []string{"c13:both-concurrent-closes-report-success"}
				case a == "error" && b == "error":
					return []string{"c13:both-concurrent-closes-report-an-error"}
				}

				return nil
			}, w.teardown
		}}
}

// k9: the application installs a permission through Client.CreatePermission while another goroutine
// closes the relayed socket (which deregisters it at the client under the write lock): both calls return.
func k9() *sched.Scenario {
	return &sched.Scenario{Name: "K9-client-createpermission-vs-relay-close", Bound: bound() - 1, FreeBound: 2, Opt: opt,
		Body: func(*vsched.Sched) (func() []string, func()) {
			w := newCWorld(100 * time.Millisecond)
			var nt notes
			peerA := vtx.PeerSpec["A"]
			vsched.Go("server", w.autoServer)
			vsched.Go("app", func() {
				conn, err := w.cl.Allocate()
				if err != nil {
					nt.set("alloc", "failed:"+err.Error())

					return
				}
				nt.set("alloc", "ok")
				w.relayed = conn
				vsched.Mark()
				vsched.Go("perm", func() {
					_ = w.cl.CreatePermission(peerA)
					nt.set("perm", "done")
				})
				_ = conn.Close()
				nt.set("closer", "done")
			})

			return func() []string {
				if nt.get("alloc") != "ok" {
					return []string{"c13:allocate-failed:" + nt.get("alloc")}
				}
				var out []string
				for _, n := range []string{"perm", "closer"} {
					if nt.get(n) != "done" {
						out = append(out, "c18:"+n+"-never-returned")
					}
				}

				return out
			}, w.teardown
		}}
}

// k13: a TCP allocation (RFC 6062) is closed by the application while ConnectionAttempt indications for it arrive.
// Whatever the order: no panic, Close returns, the read loop lives on (a Binding transaction completes afterwards).
func k13() *sched.Scenario {
	return &sched.Scenario{Name: "K13-tcp-allocation-close-vs-connection-attempt", Bound: bound() - 1, FreeBound: 2, Opt: opt,
		Body: func(*vsched.Sched) (func() []string, func()) {
			w := newCWorld(100 * time.Millisecond)
			var nt notes
			peerA := vtx.PeerSpec["A"]
			vsched.Go("server", w.autoServer)
			vsched.Go("app", func() {
				alloc, err := w.cl.AllocateTCP()
				if err != nil {
					nt.set("alloc", "failed:"+err.Error())

					return
				}
				nt.set("alloc", "ok")
				vsched.Mark()
				vsched.Go("attempts", func() {
					for i := uint32(1); i <= 1; i++ {
						var tx [12]byte
						copy(tx[:], fmt.Sprintf("attempt-%d", i))
						w.reply(wire.New(wire.ConnectionAttempt, wire.Indication, tx).XorAddr(wire.AttrXORPeerAddress, peerA.IP, peerA.Port).U32(wire.AttrConnectionID, i).Bytes())
					}
					nt.set("attempts", "done")
				})
				_ = alloc.Close()
				nt.set("closer", "done")
				vsched.IdleSleep(time.Second)
				if _, err := w.cl.SendBindingRequestTo(w.srvAddr); err == nil {
					nt.set("binding", "ok")
				} else {
					nt.set("binding", "failed:"+errKind(err))
				}
			})

			return func() []string {
				if nt.get("alloc") != "ok" {
					return []string{"c09:allocate-tcp-failed:" + nt.get("alloc")}
				}
				var out []string
				if nt.get("closer") != "done" {
					out = append(out, "c09:close-of-the-tcp-allocation-never-returned")
				}
				if nt.get("binding") != "ok" {
					out = append(out, "c09:client-does-not-complete-a-transaction-after-close-vs-connection-attempt:"+nt.get("binding"))
				}

				return out
			}, w.teardown
		}}
}

// k10: two goroutines write to the same peer whose channel is already confirmed: both payloads go out
// as ChannelData on that channel, each exactly once and byte-identical.
func k10() *sched.Scenario {
	return &sched.Scenario{Name: "K10-two-writers-one-bound-peer", Bound: bound() - 1, FreeBound: 2, Opt: opt,
		Body: func(*vsched.Sched) (func() []string, func()) {
			w := newCWorld(100 * time.Millisecond)
			var nt notes
			peerA := vtx.PeerSpec["A"]
			vsched.Go("server", w.autoServer)
			vsched.Go("app", func() {
				conn, err := w.cl.Allocate()
				if err != nil {
					nt.set("alloc", "failed:"+err.Error())

					return
				}
				nt.set("alloc", "ok")
				w.relayed = conn
				_, _ = conn.WriteTo([]byte("first"), peerA)
				vsched.IdleSleep(500 * time.Millisecond) // the ChannelBind has been answered
				w.mu.Lock()
				w.sent = nil
				w.mu.Unlock()
				vsched.Mark()
				for _, name := range []string{"w1", "w2"} {
					vsched.Go(name, func() {
						if _, err := conn.WriteTo([]byte("payload-of-writer-"+name+"-0123456789abcdef"), peerA); err != nil {
							nt.set(name, "error")
						} else {
							nt.set(name, "ok")
						}
					})
				}
			})

			return func() []string {
				if nt.get("alloc") != "ok" {
					return []string{"c13:allocate-failed:" + nt.get("alloc")}
				}
				var out []string
				if nt.get("w1") != "ok" || nt.get("w2") != "ok" {
					out = append(out, fmt.Sprintf("c13:writeto-did-not-succeed:%s/%s", nt.get("w1"), nt.get("w2")))
				}
				w.mu.Lock()
				defer w.mu.Unlock()
				got := map[string]int{}
				for _, s := range w.sent {
					got[s]++
				}
				for _, name := range []string{"w1", "w2"} {
					want := "chan:0x4000:payload-of-writer-" + name + "-0123456789abcdef"
					if got[want] != 1 {
						out = append(out, fmt.Sprintf("c13:payload-of-a-concurrent-writer-emitted-%d-times-on-the-bound-channel", got[want]))
					}
					delete(got, want)
				}
				if len(got) > 0 {
					out = append(out, "c13:something-else-than-the-two-payloads-was-emitted\n"+fmt.Sprint(got))
				}

				return out
			}, w.teardown
		}}
}

// k11: a ReadFrom that reports an exceeded deadline races a SetReadDeadline that moves the deadline an
// hour into the future. Once SetReadDeadline has returned, a new ReadFrom waits for data: it does not
// time out.
func k11() *sched.Scenario {
	return &sched.Scenario{Name: "K11-readfrom-timeout-vs-setreaddeadline", Bound: bound() - 1, FreeBound: 2, Opt: opt,
		Body: func(*vsched.Sched) (func() []string, func()) {
			w := newCWorld(100 * time.Millisecond)
			var nt notes
			peerA := vtx.PeerSpec["A"]
			vsched.Go("server", w.autoServer)
			vsched.Go("app", func() {
				conn, err := w.cl.Allocate()
				if err != nil {
					nt.set("alloc", "failed:"+err.Error())

					return
				}
				nt.set("alloc", "ok")
				w.relayed = conn
				_ = conn.SetReadDeadline(time.Now().Add(-time.Second)) // exceeded
				inject := func(s string) {
					_, _ = w.srv.WriteTo(wire.New(wire.Data, wire.Indication, [12]byte{1}).
						XorAddr(wire.AttrXORPeerAddress, peerA.IP, peerA.Port).Str(wire.AttrData, s).Bytes(), w.cs.LocalAddr())
				}
				read := func(name string) {
					buf := make([]byte, 100)
					_, _, err := conn.ReadFrom(buf)
					switch {
					case err == nil:
						nt.set(name, "data")
					case strings.Contains(err.Error(), "timeout"):
						nt.set(name, "timeout")
					default:
						nt.set(name, "error")
					}
				}
				vsched.Mark()
				vsched.Go("reader1", func() { read("reader1") })
				vsched.Go("setter", func() {
					_ = conn.SetReadDeadline(time.Now().Add(time.Hour))
					nt.set("setter", "done")
				})
				vsched.IdleSleep(time.Second)
				if nt.get("setter") != "done" {
					return
				}
				if nt.get("reader1") == "" {
					inject("for-reader1") // it started after the new deadline: it waits for data
					vsched.IdleSleep(100 * time.Millisecond)
				}
				vsched.Go("reader2", func() { read("reader2") })
				vsched.IdleSleep(time.Second)
				nt.set("reader2-after-1s", nt.get("reader2"))
				inject("for-reader2")
				vsched.IdleSleep(100 * time.Millisecond)
			})

			return func() []string {
				switch {
				case nt.get("alloc") != "ok":
					return []string{"c13:allocate-failed:" + nt.get("alloc")}
				case nt.get("setter") != "done":
					return []string{"c13:setreaddeadline-never-returned"}
				case nt.get("reader2-after-1s") == "timeout":
					return []string{"c13:readfrom-times-out-although-the-deadline-was-moved-an-hour-ahead"}
				case nt.get("reader2") != "data":
					return []string{"c13:readfrom-after-new-deadline:" + nt.get("reader2")}
				}

				return nil
			}, w.teardown
		}}
}

func TestC13Sched(t *testing.T) { run(t, "C13", k2(), k3(), k5(), k8(), k10(), k11()) }
func TestC18Client(t *testing.T) {
	run(t, "C18", k1(), k1b(), k2(), k3(), k5(), k6(), k7(), k8(), k9(), k10(), k12(), k13())
}
func TestC09ClientSched(t *testing.T) { run(t, "C09", k13()) }
